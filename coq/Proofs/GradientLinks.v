(* C19 - links between the weight vectors that the C19 check compares with
   tf.GradientTape (Model/Gradients.v) and the evaluation models of the layers
   (Model/LatticeInterp.v of C02, Model/PWLEval.v, Model/CategoricalEval.v,
   Model/KFL.v): the layer OUTPUT is the dot product of exactly those weights
   with the kernel column, hence the weights are the kernel gradient.

   Name clashes: Model.Gradients and Model.LatticeInterp both define
   hyper_weights / dot / hat / strides / sort_desc.  Unqualified names below are
   the ones of Model.Gradients (imported last); the C02 ones are qualified. *)
From Coq Require Import Qround.
From TFL Require Import Proofs.LatticeInterp.
From TFL Require Import Model.Gradients Proofs.Gradients.
Open Scope Q_scope.

Module LI := TFL.Model.LatticeInterp.

(* ------------------------------------------------------------------ *)
(* 0. lists of rationals up to ==                                      *)
(* ------------------------------------------------------------------ *)
Notation leq := (Forall2 Qeq).

Lemma leq_refl l : leq l l.
Proof. induction l; constructor; [reflexivity|assumption]. Qed.
Lemma leq_sym a b : leq a b -> leq b a.
Proof. induction 1; constructor; [symmetry|]; assumption. Qed.
Lemma leq_trans a b c : leq a b -> leq b c -> leq a c.
Proof. intros H; revert c; induction H; intros c H'; inversion H'; subst; constructor.
  etransitivity; eassumption. auto. Qed.
Lemma leq_app a a' b b' : leq a a' -> leq b b' -> leq (a ++ b) (a' ++ b').
Proof. induction 1; intros; cbn [app]. assumption. constructor; auto. Qed.
Lemma leq_length a b : leq a b -> length a = length b.
Proof. induction 1; cbn; congruence. Qed.
Lemma leq_nth a b : leq a b -> forall i, nth i a 0 == nth i b 0.
Proof. induction 1; intros [|i]; cbn [nth]; try reflexivity. assumption. apply IHForall2. Qed.
Lemma leq_qsum a b : leq a b -> qsum a == qsum b.
Proof. induction 1; cbn [qsum]. reflexivity. rewrite H, IHForall2. reflexivity. Qed.
Lemma leq_In_nonneg a b : leq a b -> (forall x, In x a -> 0 <= x) -> forall y, In y b -> 0 <= y.
Proof. induction 1; intros Ha z Hz; cbn in Hz. contradiction. destruct Hz as [<-|Hz].
  rewrite <- H. apply Ha. left; reflexivity. apply IHForall2; [|exact Hz]. intros; apply Ha; right; assumption. Qed.

(* Model.Gradients.dot as a sum of products; congruence *)
Lemma gdot_qsum w : forall K, dot w K == qsum (map2 Qmult w K).
Proof. induction w as [|a w IH]; intros [|k K]; cbn [dot map2 qsum]; try reflexivity. rewrite IH. reflexivity. Qed.
Lemma gdot_leq w w' : leq w w' -> forall K, dot w K == dot w' K.
Proof. induction 1; intros [|k K]; cbn [dot]; try reflexivity. rewrite H, IHForall2. reflexivity. Qed.
Lemma lidot_gdot a b : LI.dot a b == dot a b.
Proof. unfold LI.dot. rewrite rsum_qsum, gdot_qsum. reflexivity. Qed.

(* ------------------------------------------------------------------ *)
(* 1. Lattice, hypercube interpolation                                 *)
(* ------------------------------------------------------------------ *)
(* the plain outer product of two weight vectors (row-major) *)
Definition op (a b : list Q) : list Q := flat_map (fun x => map (Qmult x) b) a.

Lemma op_cons x a b : op (x :: a) b = map (Qmult x) b ++ op a b.
Proof. reflexivity. Qed.
Lemma op_app a1 a2 b : op (a1 ++ a2) b = op a1 b ++ op a2 b.
Proof. unfold op. apply flat_map_app. Qed.
Lemma map_mul_leq x x' b b' : x == x' -> leq b b' -> leq (map (Qmult x) b) (map (Qmult x') b').
Proof. intros Hx. induction 1; cbn [map]; constructor. rewrite Hx, H. reflexivity. assumption. Qed.
Lemma op_leq a a' b b' : leq a a' -> leq b b' -> leq (op a b) (op a' b').
Proof. intros Ha Hb. induction Ha; cbn [op flat_map]. constructor.
  apply leq_app. apply map_mul_leq; assumption. exact IHHa. Qed.
Lemma op_map_l x b c : leq (op (map (Qmult x) b) c) (map (Qmult x) (op b c)).
Proof. induction b as [|y b IH]; cbn [map]. constructor. rewrite !op_cons, map_app.
  apply leq_app; [|exact IH]. rewrite map_map. clear IH. induction c as [|z c IHc]; cbn [map]; constructor.
  ring. exact IHc. Qed.
Lemma op_assoc a b c : leq (op (op a b) c) (op a (op b c)).
Proof. induction a as [|x a IH]. constructor. rewrite !op_cons, op_app. apply leq_app. apply op_map_l. exact IH. Qed.
Lemma op_one_r a : leq (op a [1]) a.
Proof. induction a as [|x a IH]. constructor. rewrite op_cons. cbn [map app]. constructor. ring. exact IH. Qed.

(* batch_outer_operation merges from the left; Model.Gradients.outer from the right *)
Lemma fold_left_op rest : forall w0, leq (fold_left op rest w0) (fold_right op [1] (w0 :: rest)).
Proof. induction rest as [|w rest IH]; intros w0; cbn [fold_left fold_right].
  - apply leq_sym, op_one_r.
  - eapply leq_trans. apply IH. cbn [fold_right]. apply op_assoc. Qed.
Lemma outer_fold_right ws : leq (outer ws) (fold_right op [1] ws).
Proof. induction ws as [|w ws IH]; cbn [outer fold_right]. apply leq_refl.
  induction w as [|a w IHw]; cbn [flat_map]. constructor. rewrite op_cons. apply leq_app; [|exact IHw].
  clear IHw. induction IH; cbn [map]; constructor. rewrite Qred_correct, H. reflexivity. assumption. Qed.

Lemma batch_outer_outer wls : wls <> [] -> leq (LI.batch_outer wls) (outer wls).
Proof. intros H. destruct wls as [|w0 rest]; [congruence|]. unfold LI.batch_outer.
  change LI.outer_step with op. eapply leq_trans. apply fold_left_op. apply leq_sym, outer_fold_right. Qed.

(* the 1-D weight vectors of the two models are the same lists *)
Lemma clip_onto_map2 : forall sizes x, LI.clip_onto sizes x = map2 clip_lat sizes x.
Proof. reflexivity. Qed.
Lemma all2_all_two sizes : LI.all2 sizes = all_two sizes.
Proof. reflexivity. Qed.

Lemma weight_lists_fast clip : forall sizes x, all_two sizes = true -> length x = length sizes ->
  LI.weight_lists sizes (map (LI.w_fast clip) x) = map (w1d_two clip) x.
Proof. induction sizes as [|s ss IH]; intros [|xd x] H2 Hl; cbn in Hl; try discriminate. reflexivity.
  cbn [all_two forallb] in H2. apply andb_true_iff in H2. destruct H2 as [E H2]. apply Nat.eqb_eq in E. subst s.
  unfold LI.weight_lists. cbn [map map2]. f_equal.
  - unfold LI.w_fast, w1d_two. cbn [seq map]. destruct clip; reflexivity.
  - apply IH. exact H2. lia. Qed.
Lemma weight_lists_general (clip : bool) : forall sizes (x : list Q),
  LI.weight_lists sizes (map Interp1D.hat (if clip then LI.clip_onto sizes x else x)) =
  map2 (fun s xi => w1d s (if clip then clip_lat s xi else xi)) sizes x.
Proof. unfold LI.weight_lists. destruct clip.
  - induction sizes as [|s ss IH]; intros [|xd x]; try reflexivity. cbn [LI.clip_onto map2 map]. f_equal. apply IH.
  - induction sizes as [|s ss IH]; intros [|xd x]; try reflexivity. cbn [map2 map]. f_equal. apply IH. Qed.

(* the tabulated 1-D weights of C02's model are the 1-D weights of Model.Gradients.hyper_weights *)
Definition hyper_w1d (clip as_list : bool) (sizes : list nat) (x : list Q) : list (list Q) :=
  if all_two sizes && negb as_list then map (w1d_two clip) x
  else map2 (fun s xi => w1d s (if clip then clip_lat s xi else xi)) sizes x.
Lemma hyper_weights_outer clip as_list sizes x : hyper_weights clip as_list sizes x = outer (hyper_w1d clip as_list sizes x).
Proof. unfold hyper_weights, hyper_w1d. destruct (all_two sizes && negb as_list); reflexivity. Qed.
Lemma weight_lists_eq tensor clip sizes x : length x = length sizes ->
  LI.weight_lists sizes (LI.hyper_weights tensor clip sizes x) = hyper_w1d clip (negb tensor) sizes x.
Proof. intros Hl. unfold LI.hyper_weights, hyper_w1d. rewrite all2_all_two, Bool.negb_involutive.
  destruct (all_two sizes && tensor) eqn:E.
  - apply andb_true_iff in E. destruct E as [E _]. apply weight_lists_fast; assumption.
  - apply weight_lists_general. Qed.
Lemma hyper_w1d_length clip as_list sizes x : length x = length sizes -> length (hyper_w1d clip as_list sizes x) = length sizes.
Proof. intros H. unfold hyper_w1d. destruct (all_two sizes && negb as_list). rewrite map_length; exact H.
  rewrite map2_length. lia. Qed.

(* The weight vector that C02's literal model multiplies with the kernel column
   IS (entry by entry) the vector the C19 check compares with the tape gradient. *)
Lemma hyper_weights_link tensor clip sizes x : length x = length sizes -> sizes <> [] ->
  leq (LI.batch_outer (LI.weight_lists sizes (LI.hyper_weights tensor clip sizes x)))
      (hyper_weights clip (negb tensor) sizes x).
Proof. intros Hl Hne. rewrite weight_lists_eq by exact Hl. rewrite hyper_weights_outer.
  apply batch_outer_outer. intros E. apply (f_equal (@length _)) in E.
  rewrite hyper_w1d_length in E by exact Hl. destruct sizes; [congruence|discriminate]. Qed.

Lemma hyper_unit_linear tensor clip units sizes K u x : length x = length sizes -> sizes <> [] ->
  LI.unit_fn LI.Hypercube tensor clip units sizes K u x == dot (hyper_weights clip (negb tensor) sizes x) (column u K).
Proof. intros Hl Hne. unfold LI.unit_fn, LI.hyper_unit_lit. rewrite lidot_gdot.
  apply gdot_leq. apply hyper_weights_link; assumption. Qed.

(* layer level: entry (p, u) of lattice_eval *)
Lemma lattice_hyper_output_linear tensor clip units sizes K pts p u :
  (p < length pts)%nat -> (u < units)%nat -> (u < length (nth p pts []))%nat ->
  length (nth u (nth p pts []) []) = length sizes -> sizes <> [] ->
  nth u (nth p (LI.lattice_eval LI.Hypercube tensor clip units sizes K pts) []) 0 ==
  dot (hyper_weights clip (negb tensor) sizes (nth u (nth p pts []) [])) (column u K).
Proof. intros Hp Hu Hu' Hl Hne. rewrite lattice_eval_unit by assumption. apply hyper_unit_linear; assumption. Qed.

(* kernel matrix with entry (v, u') replaced *)
Definition mat_set (v u : nat) (a : Q) (K : list (list Q)) : list (list Q) :=
  set_nth_g v (set_nth u a (nth v K [])) K.
Lemma column_mat_set_same u a : forall K v, (v < length K)%nat -> (u < length (nth v K []))%nat ->
  column u (mat_set v u a K) = set_nth v a (column u K).
Proof. unfold mat_set, column. induction K as [|r K IH]; intros [|v] Hv Hu; cbn in Hv; try lia; cbn [nth] in Hu;
  cbn [set_nth_g map set_nth nth].
  - rewrite nth_set_nth_same by exact Hu. reflexivity.
  - f_equal. apply IH. lia. exact Hu. Qed.
Lemma column_mat_set_other u u' a : u <> u' -> forall K v, column u (mat_set v u' a K) = column u K.
Proof. intros Hne. unfold mat_set, column. induction K as [|r K IH]; intros [|v]; cbn [set_nth_g map nth]; try reflexivity.
  - rewrite nth_set_nth_other by auto. reflexivity.
  - f_equal. apply IH. Qed.
Lemma column_length u (K : list (list Q)) : length (column u K) = length K.
Proof. apply map_length. Qed.
Lemma nth_column_g u (K : list (list Q)) n : nth n (column u K) 0 = nth u (nth n K []) 0.
Proof. apply nth_column. Qed.

(* d output_u / d K[v, u'] = [u = u'] * weight_v, for every kernel K *)
Lemma lin_col_gradient (w : list Q) K u u' v h : (v < length K)%nat -> (u' < length (nth v K []))%nat ->
  dot w (column u (mat_set v u' (nth u' (nth v K []) 0 + h) K)) - dot w (column u K)
  == h * (if Nat.eqb u u' then nth v w 0 else 0).
Proof. intros Hv Hu. destruct (Nat.eqb_spec u u') as [->|Hne].
  - rewrite column_mat_set_same by assumption. rewrite <- (nth_column_g u' K v).
    apply (lin_eval_gradient w (column u' K) v h). rewrite column_length. exact Hv.
  - rewrite column_mat_set_other by exact Hne. ring. Qed.

Lemma lattice_hyper_kernel_gradient tensor clip units sizes K u x u' v h :
  length x = length sizes -> sizes <> [] -> (v < length K)%nat -> (u' < length (nth v K []))%nat ->
  LI.unit_fn LI.Hypercube tensor clip units sizes (mat_set v u' (nth u' (nth v K []) 0 + h) K) u x
  - LI.unit_fn LI.Hypercube tensor clip units sizes K u x
  == h * (if Nat.eqb u u' then nth v (hyper_weights clip (negb tensor) sizes x) 0 else 0).
Proof. intros Hl Hne Hv Hu. rewrite !hyper_unit_linear by assumption. apply lin_col_gradient; assumption. Qed.

(* lattice_point_ok is C02's ok_input + sizes_ok *)
Lemma lattice_point_ok_length clip sizes x : lattice_point_ok clip sizes x -> length x = length sizes.
Proof. induction 1; cbn; congruence. Qed.

Lemma lattice_hyper_output_convex tensor clip units sizes K u x : sizes <> [] -> lattice_point_ok clip sizes x ->
  LI.unit_fn LI.Hypercube tensor clip units sizes K u x == dot (hyper_weights clip (negb tensor) sizes x) (column u K) /\
  (forall a, In a (hyper_weights clip (negb tensor) sizes x) -> 0 <= a) /\
  qsum (hyper_weights clip (negb tensor) sizes x) == 1.
Proof. intros Hne Hok. split. apply hyper_unit_linear. apply lattice_point_ok_length with clip; exact Hok. exact Hne.
  apply hyper_weights_convex. exact Hok. Qed.

(* ------------------------------------------------------------------ *)
(* 2. Lattice, simplex interpolation                                   *)
(* ------------------------------------------------------------------ *)
Lemma strides_eq : forall sizes, LI.strides sizes = strides sizes.
Proof. induction sizes as [|s ss IH]; cbn [LI.strides strides]. reflexivity. rewrite IH. reflexivity. Qed.

(* C02's pairs are (residual, dimension), the stride is looked up after the
   sort; Model.Gradients sorts (residual, stride) pairs.  [prel f] relates them. *)
Definition prel (f : Q * nat -> Z) (p : Q * nat) (q : Q * Z) : Prop := fst p == fst q /\ snd q = f p.

Lemma Qle_bool_eq a a' b b' : a == a' -> b == b' -> Qle_bool a b = Qle_bool a' b'.
Proof. intros Ha Hb. destruct (Qle_bool a b) eqn:E1, (Qle_bool a' b') eqn:E2; try reflexivity.
  - apply Qle_bool_iff in E1. assert (H : a' <= b') by lra. apply Qle_bool_iff in H. congruence.
  - apply Qle_bool_iff in E2. assert (H : a <= b) by lra. apply Qle_bool_iff in H. congruence. Qed.

Lemma insert_rel f a a' l l' : prel f a a' -> Forall2 (prel f) l l' ->
  Forall2 (prel f) (LI.insert_desc a l) (ins_desc a' l').
Proof. intros Ha H. induction H as [|b b' l l' Hb H IH]; cbn [LI.insert_desc ins_desc].
  - constructor. exact Ha. constructor.
  - unfold qle. rewrite (Qle_bool_eq (fst b) (fst b') (fst a) (fst a')) by (apply Hb || apply Ha).
    destruct (Qle_bool (fst b') (fst a')). constructor; [exact Ha|constructor; assumption].
    constructor; assumption. Qed.
Lemma sort_rel f l l' : Forall2 (prel f) l l' -> Forall2 (prel f) (LI.sort_desc l) (sort_desc l').
Proof. induction 1; cbn [LI.sort_desc sort_desc fold_right]. constructor. apply insert_rel; assumption. Qed.

Lemma sp_eval_cons p ts K : sp_eval (p :: ts) K = snd p * K (fst p) + sp_eval ts K.
Proof. reflexivity. Qed.

Lemma walk_flat_terms g f l l' : Forall2 (prel f) l l' -> forall prev prev' ix, prev == prev' ->
  walk_flat g f prev ix l == sp_eval (simplex_terms prev' ix l') g.
Proof. induction 1 as [|a [r s] l l' [Ha Hs] H IH]; intros prev prev' ix Hp; cbn [walk_flat simplex_terms].
  - rewrite sp_eval_cons. cbn [fst snd]. unfold sp_eval. cbn [map qsum]. rewrite Hp. ring.
  - rewrite sp_eval_cons. cbn [fst snd] in *. subst s. rewrite <- (IH (fst a) r (ix + f a)%Z Ha).
    set (W := walk_flat g f (fst a) (ix + f a) l). rewrite Hp, Ha. ring. Qed.

Lemma combine_rel S : forall rs rs', leq rs rs' -> forall pre suf, S = pre ++ suf -> (length rs <= length suf)%nat ->
  Forall2 (prel (fun p => Z.of_nat (nth (snd p) S 0%nat)))
          (combine rs (seq (length pre) (length rs))) (combine rs' (map Z.of_nat suf)).
Proof. induction 1 as [|r r' rs rs' Hr H IH]; intros pre suf HS Hl; cbn [length seq combine]. constructor.
  destruct suf as [|s suf]; cbn [length] in Hl. lia. cbn [map combine]. constructor.
  - split. exact Hr. cbn [snd]. subst S. rewrite nth_middle. reflexivity.
  - specialize (IH (pre ++ [s]) suf). rewrite app_length, Nat.add_1_r in IH. apply IH.
    rewrite <- app_assoc. exact HS. lia. Qed.

Lemma strides_length : forall sizes, length (strides sizes) = length sizes.
Proof. induction sizes; cbn; congruence. Qed.

Lemma offset_zdot : forall cs st, fold_right Z.add 0%Z (map2 Z.mul cs (map Z.of_nat st)) = zdot cs st.
Proof. induction cs as [|c cs IH]; intros [|s st]; cbn [map map2 fold_right zdot]; try reflexivity. rewrite IH. reflexivity. Qed.
Lemma offset_zero : forall cs st, Forall (eq 0%Z) cs -> fold_right Z.add 0%Z (map2 Z.mul cs st) = 0%Z.
Proof. induction cs as [|c cs IH]; intros [|s st] H; cbn [map2 fold_right]; try reflexivity.
  inversion H; subst. rewrite IH by assumption. reflexivity. Qed.
Lemma corner_true_zero : forall sizes (z : list Q), Forall (eq 0%Z) (map2 (corner true) sizes z).
Proof. induction sizes as [|s ss IH]; intros [|zd z]; cbn [map2]; constructor. reflexivity. apply IH. Qed.
Lemma corner_false_eq : forall sizes z, map2 (corner false) sizes z = LI.lower_corner sizes z.
Proof. reflexivity. Qed.
Lemma res_zero_corner : forall (z : list Q) cs, Forall (eq 0%Z) cs -> length z = length cs ->
  leq z (map2 (fun xi c => xi - inject_Z c) z cs).
Proof. induction z as [|zd z IH]; intros [|c cs] H Hl; cbn in Hl; try discriminate; cbn [map2]; constructor.
  inversion H; subst. change (inject_Z 0) with 0. ring. apply IH. inversion H; assumption. lia. Qed.

(* C02's simplex model, on any gather function, is the sparse sum over the
   terms of Model.Gradients.simplex_sparse: no range hypothesis *)
Lemma simplex_unit_sparse clip sizes g x : length x = length sizes ->
  LI.simplex_unit clip sizes g x == sp_eval (simplex_sparse clip sizes x) g.
Proof. intros Hl. rewrite simplex_unit_clip, simplex_unit_walk_flat. unfold simplex_sparse. cbv zeta.
  change (map2 clip_lat sizes x) with (LI.clip_onto sizes x). set (z := if clip then LI.clip_onto sizes x else x).
  assert (Lz : length z = length sizes).
  { unfold z. destruct clip. apply clip_onto_length; exact Hl. exact Hl. }
  change (all_two sizes) with (LI.all2 sizes).
  assert (Lc : forall b, length (map2 (corner b) sizes z) = length sizes) by (intros b; rewrite map2_length; lia).
  assert (Eo : fold_right Z.add 0%Z (map2 Z.mul (map2 (corner (LI.all2 sizes)) sizes z) (map Z.of_nat (strides sizes)))
               = moffset sizes z).
  { unfold moffset. destruct (LI.all2 sizes). apply offset_zero, corner_true_zero.
    rewrite offset_zdot. reflexivity. }
  rewrite Eo. apply walk_flat_terms; [|reflexivity]. apply sort_rel.
  unfold mpairs, stf. change (LI.strides sizes) with (strides sizes).
  apply (combine_rel (strides sizes) _ _) with (pre := []) (suf := strides sizes).
  - unfold mres. destruct (LI.all2 sizes).
    + apply res_zero_corner. apply corner_true_zero. rewrite Lc; exact Lz.
    + change (map2 (corner false) sizes z) with (LI.lower_corner sizes z). apply leq_refl.
  - reflexivity.
  - rewrite strides_length. unfold mres. destruct (LI.all2 sizes). lia.
    rewrite map2_length. unfold LI.lower_corner. rewrite map2_length. lia. Qed.

Lemma unit_fn_simplex_sparse tensor clip units sizes K u x : length x = length sizes ->
  LI.unit_fn LI.Simplex tensor clip units sizes K u x == sp_eval (simplex_sparse clip sizes x) (gather_of units K u).
Proof. intros Hl. rewrite unit_fn_simplex. apply simplex_unit_sparse. exact Hl. Qed.

(* ---- the dense weight vector (what the check compares) ---- *)
Lemma gdot_nil_r w : dot w [] = 0.
Proof. destruct w; reflexivity. Qed.
Lemma qsum_map_zero {A} (f : A -> Q) l : (forall a, f a == 0) -> qsum (map f l) == 0.
Proof. intros H. induction l as [|a l IH]; cbn [map qsum]. reflexivity. rewrite H, IH. ring. Qed.
Lemma gdot_tab : forall n (f : nat -> Q) L,
  dot (map f (seq 0 n)) L == qsum (map (fun v => f v * nth v L 0) (seq 0 n)).
Proof. induction n as [|n IH]; intros f L. reflexivity.
  rewrite <- cons_seq, <- seq_shift. cbn [map]. rewrite !map_map. destruct L as [|y L].
  - rewrite gdot_nil_r. cbn [qsum nth]. rewrite qsum_map_zero. ring. intros a. destruct a; cbn [nth]; ring.
  - cbn [dot qsum nth]. rewrite (IH (fun v => f (S v)) L). reflexivity. Qed.

Lemma sp_weight_cons p ts v : sp_weight (p :: ts) v = (if Z.eqb (fst p) v then snd p else 0) + sp_weight ts v.
Proof. reflexivity. Qed.

Lemma ind_sum (F : nat -> Q) a i : forall n k, (Z.of_nat k <= i < Z.of_nat (k + n))%Z ->
  qsum (map (fun v => (if Z.eqb i (Z.of_nat v) then a else 0) * F v) (seq k n)) == a * F (Z.to_nat i).
Proof. induction n as [|n IH]; intros k H. lia. cbn [seq map qsum].
  destruct (Z.eqb_spec i (Z.of_nat k)) as [E|NE].
  - subst i. rewrite Nat2Z.id. rewrite qsum_map_ext with (g := fun _ => 0). rewrite qsum_map_zero by reflexivity. ring.
    intros v Hv. apply in_seq in Hv. destruct (Z.eqb_spec (Z.of_nat k) (Z.of_nat v)). lia. ring.
  - rewrite IH by lia. ring. Qed.

Lemma sp_dense (F : nat -> Q) n : forall ts, (forall p, In p ts -> (0 <= fst p < Z.of_nat n)%Z) ->
  qsum (map (fun v => sp_weight ts (Z.of_nat v) * F v) (seq 0 n)) == qsum (map (fun p => snd p * F (Z.to_nat (fst p))) ts).
Proof. induction ts as [|p ts IH]; intros H.
  - cbn [map qsum]. apply qsum_map_zero. intros v. unfold sp_weight. cbn. ring.
  - cbn [map qsum]. rewrite <- IH by (intros q Hq; apply H; right; exact Hq).
    rewrite <- (ind_sum F (snd p) (fst p) n 0) by (apply H; left; reflexivity).
    rewrite <- qsum_map_plus. apply qsum_map_ext. intros v _. rewrite sp_weight_cons. ring. Qed.

Lemma simplex_weights_leq clip sizes x :
  leq (simplex_weights clip sizes x)
      (map (fun v => sp_weight (simplex_sparse clip sizes x) (Z.of_nat v)) (seq 0 (num_vertices sizes))).
Proof. unfold simplex_weights. induction (seq 0 (num_vertices sizes)); cbn [map]; constructor.
  apply Qred_correct. assumption. Qed.

Lemma gather_column units K u v : wfK units K u -> gather_of units K u (Z.of_nat v) = nth v (column u K) 0.
Proof. intros [Hu HF]. rewrite nth_column. unfold gather_of. destruct (Nat.eqb_spec units 1) as [E|NE].
  - subst units. assert (u = 0%nat) by lia. subst u. rewrite nthZ_nat.
    rewrite <- (nth_concat 1 0 ltac:(lia) K v HF). rewrite Nat.mul_1_r, Nat.add_0_r. reflexivity.
  - rewrite <- Nat2Z.inj_mul, <- Nat2Z.inj_add, nthZ_nat. rewrite (nth_concat units u Hu K _ HF). reflexivity. Qed.

(* sparse sum == dense dot, when every gathered index is a vertex index *)
Lemma sp_eval_dense units K u n ts : wfK units K u -> (forall p, In p ts -> (0 <= fst p < Z.of_nat n)%Z) ->
  sp_eval ts (gather_of units K u) == dot (map (fun v => sp_weight ts (Z.of_nat v)) (seq 0 n)) (column u K).
Proof. intros HK Hr. rewrite gdot_tab. rewrite (sp_dense (fun v => nth v (column u K) 0) n ts Hr).
  unfold sp_eval. apply qsum_map_ext. intros p Hp. destruct (Hr p Hp) as [H0 _].
  rewrite <- (gather_column units K u _ HK). rewrite Z2Nat.id by exact H0. reflexivity. Qed.

(* ---- gathered indices stay inside the kernel for admissible inputs ---- *)
Definition zsum (l : list Z) : Z := fold_right Z.add 0%Z l.

Lemma simplex_terms_range : forall l prev idx, (forall p, In p l -> (0 <= snd p)%Z) ->
  forall q, In q (simplex_terms prev idx l) -> (idx <= fst q <= idx + zsum (map snd l))%Z.
Proof. induction l as [|[r s] l IH]; intros prev idx H q Hq; cbn [simplex_terms] in Hq.
  - destruct Hq as [<-|[]]. cbn. lia.
  - assert (Hs : (0 <= s)%Z) by (apply (H (r, s)); left; reflexivity).
    assert (Hz : (0 <= zsum (map snd l))%Z).
    { clear IH Hq. induction l as [|p l IHl]; cbn. lia.
      assert (0 <= snd p)%Z by (apply H; right; left; reflexivity).
      assert (0 <= zsum (map snd l))%Z by (apply IHl; intros p' [E|Hp']; apply H; [left; exact E|right; right; exact Hp']).
      unfold zsum in *. lia. }
    cbn [map snd zsum fold_right]. fold (zsum (map snd l)). destruct Hq as [<-|Hq]. cbn [fst]. lia.
    specialize (IH r (idx + s)%Z ltac:(intros p Hp; apply H; right; exact Hp) q Hq). lia. Qed.

Lemma ins_in p l q : In q (ins_desc p l) -> q = p \/ In q l.
Proof. induction l as [|b l IH]; cbn [ins_desc]. intros [<-|[]]; left; reflexivity.
  destruct (Qle_bool (fst b) (fst p)). intros [<-|H]. left; reflexivity. right; exact H.
  intros [<-|H]. right; left; reflexivity. destruct (IH H). left; assumption. right; right; assumption. Qed.
Lemma sort_in l q : In q (sort_desc l) -> In q l.
Proof. induction l as [|p l IH]; cbn [sort_desc fold_right]. tauto. intros H. apply ins_in in H.
  destruct H as [->|H]. left; reflexivity. right; apply IH; exact H. Qed.
Lemma ins_sum p l : zsum (map snd (ins_desc p l)) = (snd p + zsum (map snd l))%Z.
Proof. induction l as [|b l IH]; cbn [ins_desc]. reflexivity. destruct (Qle_bool (fst b) (fst p)). reflexivity.
  cbn [map zsum fold_right] in *. fold (zsum (map snd (ins_desc p l))). fold (zsum (map snd l)). rewrite IH. lia. Qed.
Lemma sort_sum l : zsum (map snd (sort_desc l)) = zsum (map snd l).
Proof. induction l as [|p l IH]; cbn [sort_desc fold_right]. reflexivity. fold (sort_desc l). rewrite ins_sum, IH. reflexivity. Qed.
Lemma map_snd_combine {A B} : forall (a : list A) (b : list B), length a = length b -> map snd (combine a b) = b.
Proof. induction a as [|x a IH]; intros [|y b] H; cbn in H; try discriminate. reflexivity. cbn. f_equal. apply IH. lia. Qed.

Lemma offset_bound : forall sizes cs, Forall2 (fun s c => (0 <= c <= Z.of_nat s - 2)%Z) sizes cs ->
  (0 <= zsum (map2 Z.mul cs (map Z.of_nat (strides sizes))) /\
   zsum (map2 Z.mul cs (map Z.of_nat (strides sizes))) + zsum (map Z.of_nat (strides sizes))
   <= Z.of_nat (num_vertices sizes) - 1)%Z.
Proof. induction 1 as [|s c ss cs Hc H IH]. cbn. lia.
  cbn [strides map map2 zsum fold_right num_vertices]. fold (num_vertices ss).
  fold (zsum (map2 Z.mul cs (map Z.of_nat (strides ss)))). fold (zsum (map Z.of_nat (strides ss))).
  rewrite Nat2Z.inj_mul. set (P := Z.of_nat (num_vertices ss)) in *. nia. Qed.

Lemma trunc_nonneg x : 0 <= x -> (0 <= trunc x)%Z.
Proof. intros H. destruct (qtrunc_floor x H) as [H0 _]. exact H0. Qed.
Lemma corner_range all2 s zd : (2 <= s)%nat -> 0 <= zd -> (0 <= corner all2 s zd <= Z.of_nat s - 2)%Z.
Proof. intros Hs H0. unfold corner. destruct all2. lia. pose proof (trunc_nonneg zd H0). lia. Qed.
Lemma corners_range clip all2 sizes x : Forall2 (simplex_ok_dim clip all2) sizes x ->
  Forall2 (fun s c => (0 <= c <= Z.of_nat s - 2)%Z) sizes
          (map2 (corner all2) sizes (if clip then map2 clip_lat sizes x else x)).
Proof. intros H. destruct clip.
  - induction H as [|s xi sizes x [Hs _] _ IH]; cbn [map2]; constructor; [|exact IH].
    destruct (clip_lat_range s xi); [lia|]. apply corner_range; assumption.
  - induction H as [|s xi sizes x [Hs [_ Hx]] _ IH]; cbn [map2]; constructor; [|exact IH].
    destruct Hx as [Hx|[H0 _]]; [discriminate|]. apply corner_range; assumption. Qed.

Lemma simplex_indices_in_range clip sizes x : lattice_point_ok clip sizes x ->
  forall p, In p (simplex_sparse clip sizes x) -> (0 <= fst p < Z.of_nat (num_vertices sizes))%Z.
Proof. intros Hok p Hp. pose proof (lattice_point_ok_length _ _ _ Hok) as Hl.
  pose proof (corners_range clip (all_two sizes) sizes x (lattice_point_simplex_ok _ _ _ Hok)) as Hc.
  unfold simplex_sparse in Hp. cbv zeta in Hp.
  set (z := if clip then map2 clip_lat sizes x else x) in *.
  set (cs := map2 (corner (all_two sizes)) sizes z) in *.
  set (st := map Z.of_nat (strides sizes)) in *.
  assert (Lz : length z = length sizes).
  { unfold z. destruct clip; [rewrite map2_length|]; lia. }
  assert (Lr : length (map2 (fun xi c => xi - inject_Z c) z cs) = length st).
  { unfold cs, st. rewrite !map2_length, map_length, strides_length. lia. }
  apply simplex_terms_range in Hp.
  - rewrite sort_sum, (map_snd_combine _ _ Lr) in Hp. destruct (offset_bound sizes cs Hc) as [B0 B1].
    fold st in B0, B1. unfold zsum in *. lia.
  - intros [qr qs] Hq. apply sort_in in Hq. apply in_combine_r in Hq. cbn [snd]. unfold st in Hq. apply in_map_iff in Hq.
    destruct Hq as [k [<- _]]. lia. Qed.

(* the simplex output is the dot product of the dense weight vector with the kernel column *)
Lemma simplex_unit_linear tensor clip units sizes K u x : lattice_point_ok clip sizes x -> wfK units K u ->
  LI.unit_fn LI.Simplex tensor clip units sizes K u x == dot (simplex_weights clip sizes x) (column u K).
Proof. intros Hok HK. rewrite unit_fn_simplex_sparse by (apply lattice_point_ok_length with clip; exact Hok).
  rewrite (gdot_leq _ _ (simplex_weights_leq clip sizes x)).
  apply sp_eval_dense. exact HK. apply simplex_indices_in_range. exact Hok. Qed.

Lemma simplex_weights_convex clip sizes x : lattice_point_ok clip sizes x ->
  (forall a, In a (simplex_weights clip sizes x) -> 0 <= a) /\ qsum (simplex_weights clip sizes x) == 1.
Proof. intros Hok. destruct (simplex_sparse_convex clip sizes x Hok) as [Hnn Hsum]. split.
  - apply (leq_In_nonneg _ _ (leq_sym _ _ (simplex_weights_leq clip sizes x))).
    intros a Ha. apply in_map_iff in Ha. destruct Ha as [v [<- _]]. unfold sp_weight.
    apply qsum_map_nonneg. intros p Hp. destruct (Z.eqb (fst p) (Z.of_nat v)). apply Hnn; exact Hp. lra.
  - rewrite (leq_qsum _ _ (simplex_weights_leq clip sizes x)).
    pose proof (sp_dense (fun _ => 1) (num_vertices sizes) _ (simplex_indices_in_range clip sizes x Hok)) as D.
    rewrite <- Hsum. rewrite (qsum_map_ext _ (fun v => sp_weight (simplex_sparse clip sizes x) (Z.of_nat v) * 1)) by (intros; ring).
    rewrite D. apply qsum_map_ext. intros; ring. Qed.

Lemma lattice_simplex_output_linear tensor clip units sizes K pts p u :
  (p < length pts)%nat -> (u < units)%nat -> (u < length (nth p pts []))%nat ->
  lattice_point_ok clip sizes (nth u (nth p pts []) []) -> Forall (fun r => length r = units) K ->
  nth u (nth p (LI.lattice_eval LI.Simplex tensor clip units sizes K pts) []) 0 ==
  dot (simplex_weights clip sizes (nth u (nth p pts []) [])) (column u K).
Proof. intros Hp Hu Hu' Hok HK. rewrite lattice_eval_unit by assumption. apply simplex_unit_linear. exact Hok.
  split; assumption. Qed.

Lemma lattice_simplex_kernel_gradient tensor clip units sizes K u x u' v h :
  lattice_point_ok clip sizes x -> (u < units)%nat -> Forall (fun r => length r = units) K ->
  (v < length K)%nat -> (u' < units)%nat ->
  LI.unit_fn LI.Simplex tensor clip units sizes (mat_set v u' (nth u' (nth v K []) 0 + h) K) u x
  - LI.unit_fn LI.Simplex tensor clip units sizes K u x
  == h * (if Nat.eqb u u' then nth v (simplex_weights clip sizes x) 0 else 0).
Proof. intros Hok Hu HK Hv Hu'.
  assert (Hrow : length (nth v K []) = units).
  { rewrite Forall_forall in HK. apply HK. apply nth_In. exact Hv. }
  assert (HK' : Forall (fun r => length r = units) (mat_set v u' (nth u' (nth v K []) 0 + h) K)).
  { unfold mat_set. clear Hrow. revert v Hv. induction HK as [|r K Hr HK IH]; intros [|v] Hv; cbn in Hv; try lia;
    cbn [set_nth_g nth]; constructor; try assumption. rewrite set_nth_length. exact Hr. apply IH. lia. }
  rewrite !simplex_unit_linear by (try assumption; split; assumption).
  apply lin_col_gradient. exact Hv. lia. Qed.

(* ------------------------------------------------------------------ *)
(* 3. PWLCalibration: the layer model of Model/PWLEval.v                *)
(* ------------------------------------------------------------------ *)
Require TFL.Model.PWLEval TFL.Model.CategoricalEval.
Module PE := TFL.Model.PWLEval.
Module CE := TFL.Model.CategoricalEval.

Lemma pdot_gdot : forall a b, PE.dot a b = dot a b.
Proof. induction a as [|x a IH]; intros [|y b]; cbn [PE.dot dot]; try reflexivity. Qed.
Lemma pweights_eq x : forall kps lens, PE.interp_w x kps lens = map2 (fun kp len => qmax (qmin ((x - kp) / len) 1) 0) kps lens.
Proof. induction kps as [|k kps IH]; intros [|l lens]; cbn [PE.interp_w map2]; try reflexivity. rewrite IH. reflexivity. Qed.
Lemma interpolation_weights_eq x kps lens : PE.interpolation_weights x kps lens = pwl_weights kps lens x.
Proof. unfold PE.interpolation_weights, pwl_weights. rewrite pweights_eq. reflexivity. Qed.

Lemma column_app u (A B : list (list Q)) : column u (A ++ B) = column u A ++ column u B.
Proof. unfold column. apply map_app. Qed.
Lemma column_tl u (A : list (list Q)) : column u (tl A) = tl (column u A).
Proof. destruct A; reflexivity. Qed.

(* column u of bias_and_heights is the per-unit list pwl_eval uses *)
Lemma bias_and_heights_column L u : (u < PE.p_units L)%nat ->
  column u (PE.bias_and_heights L) =
  (if PE.p_cyclic L then column u (PE.p_kernel L) ++ [- qsum (tl (column u (PE.p_kernel L)))] else column u (PE.p_kernel L)).
Proof. intros Hu. unfold PE.bias_and_heights. destruct (PE.p_cyclic L); [|reflexivity].
  rewrite column_app. f_equal. unfold column at 1. cbn [map]. unfold PE.closing_row.
  rewrite nth_map_seq by exact Hu. rewrite column_tl. reflexivity. Qed.

(* which input column / missing flag unit u reads: broadcasting of a single column *)
Definition sel (cols u : nat) : nat := if (cols =? 1)%nat then 0%nat else u.
Definition unit_input (row : list Q) (u : nat) : Q := nth (sel (length row) u) row 0.
Definition missing_flag (L : PE.pwl_layer) (row : list Q) (given : option (list Q)) (u : nat) : Q :=
  if PE.p_impute L then
    match given, PE.p_missing_input L with
    | Some m, _ => nth (sel (length m) u) m 0
    | None, Some v => nth (sel (length (PE.equal_flags v row)) u) (PE.equal_flags v row) 0
    | None, None => 0
    end
  else 0.

Lemma calib_row_unit L row u : (u < PE.p_units L)%nat -> (length row <= 1 \/ length row = PE.p_units L)%nat ->
  nth u (PE.calib_row L row) 0 =
  dot (pwl_weights (PE.unit_lefts L u) (PE.unit_lens L u) (unit_input row u)) (column u (PE.bias_and_heights L)).
Proof. intros Hu Hrow. unfold PE.calib_row. destruct (PE.expands L (length row)) eqn:E.
  - rewrite nth_map_seq by exact Hu. rewrite pdot_gdot, interpolation_weights_eq. reflexivity.
  - rewrite nth_map_seq by exact Hu. rewrite pdot_gdot, interpolation_weights_eq.
    unfold PE.expands in E. apply Bool.orb_false_iff in E. destruct E as [E1 E2].
    apply Nat.ltb_ge in E1.
    assert (Ex : nth 0 row 0 = unit_input row u).
    { unfold unit_input, sel. destruct (Nat.eqb_spec (length row) 1). reflexivity.
      assert (length row = 0%nat) by lia. destruct row; [|discriminate]. destruct u; reflexivity. }
    assert (Et : forall tbl, nth 0 tbl [] = PE.unit_row (PE.p_learned L) tbl u).
    { intros tbl. unfold PE.unit_row. destruct (PE.p_learned L); [|reflexivity]. cbn [andb] in E2.
      apply Nat.ltb_ge in E2. assert (u = 0%nat) by lia. subst u. reflexivity. }
    rewrite Ex. unfold PE.unit_lefts, PE.unit_lens. rewrite <- !Et. reflexivity. Qed.

Lemma mix_row_unit L m res u : (u < PE.p_units L)%nat ->
  nth u (PE.mix_row L m res) 0 =
  nth (sel (length m) u) m 0 * nth u (PE.p_missing_output L) 0 + (1 - nth (sel (length m) u) m 0) * nth u res 0.
Proof. intros Hu. unfold PE.mix_row. rewrite nth_map_seq by exact Hu. reflexivity. Qed.

(* the layer's output for unit u is Model.Gradients.pwl_eval on that unit's kernel column *)
Lemma call_row_unit L row given u : (u < PE.p_units L)%nat -> (length row <= 1 \/ length row = PE.p_units L)%nat ->
  nth u (PE.call_row L row given) 0 ==
  pwl_eval (PE.p_cyclic L) (missing_flag L row given u) (nth u (PE.p_missing_output L) 0)
           (PE.unit_lefts L u) (PE.unit_lens L u) (column u (PE.p_kernel L)) (unit_input row u).
Proof. intros Hu Hrow. unfold pwl_eval. rewrite <- bias_and_heights_column by exact Hu.
  rewrite <- calib_row_unit by assumption. unfold PE.call_row, missing_flag.
  destruct (PE.p_impute L). destruct given as [m|]; [|destruct (PE.p_missing_input L) as [v|]].
  - rewrite mix_row_unit by exact Hu. reflexivity.
  - rewrite mix_row_unit by exact Hu. reflexivity.
  - ring.
  - ring. Qed.

Lemma gdot_map_scale c w : forall K, dot (map (fun a => Qred (c * a)) w) K == c * dot w K.
Proof. induction w as [|a w IH]; intros [|k K]; cbn [map dot]; try ring. rewrite IH, Qred_correct. ring. Qed.

(* pwl_eval is  m * mo + <pwl_kernel_weights, K>:  linear in the kernel with
   exactly the weight vector the check compares with the tape gradient *)
Lemma pwl_eval_linear (cyclic : bool) m mo kps lens (K : list Q) x :
  (cyclic = true -> length kps = length lens /\ K <> [] /\ length K = length kps) ->
  pwl_eval cyclic m mo kps lens K x == m * mo + dot (pwl_kernel_weights cyclic m kps lens x) K.
Proof. intros H. unfold pwl_eval, pwl_kernel_weights. rewrite gdot_map_scale. destruct cyclic; [|reflexivity].
  destruct (H eq_refl) as [Hl [HK HlK]]. rewrite cyclic_dot. reflexivity. exact HK.
  rewrite pwl_weights_length by exact Hl. congruence. Qed.

Definition pwl_shape_ok (L : PE.pwl_layer) (u : nat) : Prop :=
  PE.p_cyclic L = true ->
  length (PE.unit_lefts L u) = length (PE.unit_lens L u) /\ PE.p_kernel L <> [] /\
  length (PE.p_kernel L) = length (PE.unit_lefts L u).

Lemma pwl_output_linear L row given u : (u < PE.p_units L)%nat -> (length row <= 1 \/ length row = PE.p_units L)%nat ->
  pwl_shape_ok L u ->
  nth u (PE.call_row L row given) 0 ==
  missing_flag L row given u * nth u (PE.p_missing_output L) 0 +
  dot (pwl_kernel_weights (PE.p_cyclic L) (missing_flag L row given u) (PE.unit_lefts L u) (PE.unit_lens L u)
                          (unit_input row u)) (column u (PE.p_kernel L)).
Proof. intros Hu Hrow Hs. rewrite call_row_unit by assumption. apply pwl_eval_linear. intros Hc.
  destruct (Hs Hc) as [H1 [H2 H3]]. rewrite column_length. repeat split; try assumption.
  intros E. apply (f_equal (@length _)) in E. rewrite column_length in E. destruct (PE.p_kernel L); [congruence|discriminate]. Qed.

Definition pwl_with_kernel (L : PE.pwl_layer) (K : list (list Q)) : PE.pwl_layer :=
  PE.mkPWL (PE.p_units L) (PE.p_learned L) (PE.p_lefts L) (PE.p_lens L) (PE.p_cyclic L) K (PE.p_impute L)
           (PE.p_missing_input L) (PE.p_missing_output L) (PE.p_split L).

Lemma mat_set_length v u a K : length (mat_set v u a K) = length K.
Proof. unfold mat_set. generalize (set_nth u a (nth v K [])). intros r. revert v.
  induction K as [|r0 K IH]; intros [|v]; cbn; auto. Qed.

Lemma pwl_kernel_gradient_layer L row given u u' v h :
  (u < PE.p_units L)%nat -> (length row <= 1 \/ length row = PE.p_units L)%nat -> pwl_shape_ok L u ->
  (v < length (PE.p_kernel L))%nat -> (u' < length (nth v (PE.p_kernel L) []))%nat ->
  nth u (PE.call_row (pwl_with_kernel L (mat_set v u' (nth u' (nth v (PE.p_kernel L) []) 0 + h) (PE.p_kernel L))) row given) 0
  - nth u (PE.call_row L row given) 0
  == h * (if Nat.eqb u u' then
            nth v (pwl_kernel_weights (PE.p_cyclic L) (missing_flag L row given u) (PE.unit_lefts L u) (PE.unit_lens L u)
                                      (unit_input row u)) 0
          else 0).
Proof. intros Hu Hrow Hs Hv Hu'. set (K' := mat_set _ _ _ _).
  assert (Hs' : pwl_shape_ok (pwl_with_kernel L K') u).
  { intros Hc. destruct (Hs Hc) as [H1 [H2 H3]]. cbn. unfold K'. rewrite mat_set_length. repeat split; try assumption.
    intros E. apply (f_equal (@length _)) in E. rewrite mat_set_length in E. destruct (PE.p_kernel L); [congruence|discriminate]. }
  rewrite (pwl_output_linear (pwl_with_kernel L K')) by assumption. rewrite (pwl_output_linear L) by assumption.
  change (missing_flag (pwl_with_kernel L K') row given u) with (missing_flag L row given u).
  cbn [pwl_with_kernel PE.p_missing_output PE.p_cyclic PE.p_kernel].
  change (PE.unit_lefts (pwl_with_kernel L K') u) with (PE.unit_lefts L u).
  change (PE.unit_lens (pwl_with_kernel L K') u) with (PE.unit_lens L u).
  set (w := pwl_kernel_weights _ _ _ _ _).
  pose proof (lin_col_gradient w (PE.p_kernel L) u u' v h Hv Hu') as G. fold K' in G. lra. Qed.

(* ------------------------------------------------------------------ *)
(* 4. CategoricalCalibration: the layer model of Model/CategoricalEval.v *)
(* ------------------------------------------------------------------ *)
Lemma one_hot_cat_weights L i : CE.one_hot (CE.c_buckets L) (CE.replace_default L i) = cat_weights (CE.c_buckets L) (CE.c_default L) i.
Proof. reflexivity. Qed.

Lemma nth_map_Z {A} (f : A -> Z) l k d : (k < length l)%nat -> nth k (map f l) 0%Z = f (nth k l d).
Proof. intros H. rewrite nth_indep with (d' := f d) by (rewrite map_length; exact H). apply map_nth. Qed.

Lemma cat_row_unit L row u : (u < CE.c_units L)%nat -> (length row = 1 \/ length row = CE.c_units L)%nat ->
  nth u (CE.cat_row L row) 0 =
  dot (cat_weights (CE.c_buckets L) (CE.c_default L) (CE.cast_int (unit_input row u))) (column u (CE.c_kernel L)).
Proof. intros Hu Hrow. unfold CE.cat_row, unit_input, sel. destruct (Nat.eqb_spec (CE.c_units L) 1) as [E|NE].
  - assert (u = 0%nat) by lia. subst u. cbn [nth]. rewrite pdot_gdot.
    rewrite (nth_map_Z _ row 0 0) by lia. rewrite one_hot_cat_weights.
    destruct (length row =? 1)%nat; reflexivity.
  - rewrite nth_map_seq by exact Hu. rewrite pdot_gdot.
    rewrite (nth_map_Z _ row _ 0) by (destruct (Nat.eqb_spec (length row) 1); lia).
    rewrite one_hot_cat_weights. reflexivity. Qed.

(* the dot product with a one-hot vector selects one kernel row (none when the
   index is outside [0, num_buckets)) *)
Lemma one_hot_select nb j col :
  dot (map (fun b => if Z.eqb (Z.of_nat b) j then 1 else 0) (seq 0 nb)) col ==
  if ((0 <=? j) && (j <? Z.of_nat nb))%Z then nth (Z.to_nat j) col 0 else 0.
Proof. rewrite gdot_tab.
  rewrite (qsum_map_ext _ (fun v => (if Z.eqb j (Z.of_nat v) then 1 else 0) * nth v col 0))
    by (intros v _; rewrite Z.eqb_sym; reflexivity).
  assert (Z0 : forall n, (~ (0 <= j < Z.of_nat n))%Z ->
     qsum (map (fun v => (if Z.eqb j (Z.of_nat v) then 1 else 0) * nth v col 0) (seq 0 n)) == 0).
  { intros n Hn. rewrite (qsum_map_ext _ (fun _ => 0)). apply qsum_map_zero; reflexivity.
    intros v Hv. apply in_seq in Hv. destruct (Z.eqb_spec j (Z.of_nat v)). lia. ring. }
  destruct (Z.leb_spec 0 j) as [H0|H0]; [destruct (Z.ltb_spec j (Z.of_nat nb)) as [H1|H1]|]; cbn [andb].
  - rewrite (ind_sum (fun v => nth v col 0) 1 j nb 0) by lia. ring.
  - apply Z0. lia.
  - apply Z0. lia. Qed.

(* CategoricalCalibration output: the kernel row selected by the
   (default-replaced) index, or 0 when the index is outside [0, num_buckets) *)
Lemma cat_output_selects L row u : (u < CE.c_units L)%nat -> (length row = 1 \/ length row = CE.c_units L)%nat ->
  let j := cat_index (CE.c_buckets L) (CE.c_default L) (CE.cast_int (unit_input row u)) in
  nth u (CE.cat_row L row) 0 ==
  if ((0 <=? j) && (j <? Z.of_nat (CE.c_buckets L)))%Z then nth u (nth (Z.to_nat j) (CE.c_kernel L) []) 0 else 0.
Proof. intros Hu Hrow j. rewrite cat_row_unit by assumption. unfold cat_weights. fold j.
  rewrite one_hot_select. rewrite nth_column. reflexivity. Qed.

Definition cat_with_kernel (L : CE.cat_layer) (K : list (list Q)) : CE.cat_layer :=
  CE.mkCat (CE.c_buckets L) (CE.c_units L) K (CE.c_default L) (CE.c_split L).

Lemma cat_kernel_gradient_layer L row u u' b h :
  (u < CE.c_units L)%nat -> (length row = 1 \/ length row = CE.c_units L)%nat ->
  (b < CE.c_buckets L)%nat -> (b < length (CE.c_kernel L))%nat -> (u' < length (nth b (CE.c_kernel L) []))%nat ->
  nth u (CE.cat_row (cat_with_kernel L (mat_set b u' (nth u' (nth b (CE.c_kernel L) []) 0 + h) (CE.c_kernel L))) row) 0
  - nth u (CE.cat_row L row) 0
  == h * (if Nat.eqb u u' then nth b (cat_weights (CE.c_buckets L) (CE.c_default L) (CE.cast_int (unit_input row u))) 0 else 0).
Proof. intros Hu Hrow Hb Hbk Hu'. rewrite !cat_row_unit by assumption.
  cbn [cat_with_kernel CE.c_buckets CE.c_default CE.c_kernel].
  apply lin_col_gradient; assumption. Qed.

(* ------------------------------------------------------------------ *)
(* 5. KroneckerFactoredLattice: Model/KFL.v's unit_out                  *)
(* ------------------------------------------------------------------ *)
Require TFL.Model.KFL.
Module KF := TFL.Model.KFL.

Lemma qprod_prod : forall l, KF.qprod l = prod l.
Proof. induction l as [|x l IH]; cbn [KF.qprod prod]. reflexivity. rewrite IH. reflexivity. Qed.
Lemma prod_leq a b : leq a b -> prod a == prod b.
Proof. induction 1; cbn [prod]. reflexivity. rewrite H, IHForall2. reflexivity. Qed.

Lemma hat_eq a b k : a == b -> hat a k == hat b k.
Proof. intros H. unfold hat. qcases; lra. Qed.
Lemma kf_hat_hat x k : KF.hat (KF.qn k - x) == hat x k.
Proof. unfold KF.hat, hat. change (KF.qn k) with (qnat k). qcases; lra. Qed.

Lemma kfl_w1d_clip_in clip L x : kfl_w1d clip L x = kfl_w1d false L (KF.clip_in clip L x).
Proof. destruct clip; reflexivity. Qed.
Lemma interp_weights_w1d L x : leq (KF.interp_weights L x) (kfl_w1d false L x).
Proof. unfold KF.interp_weights, kfl_w1d. destruct (L =? 2)%nat. apply leq_refl.
  unfold w1d. induction (seq 0 L); cbn [map]; constructor. apply kf_hat_hat. assumption. Qed.
Lemma pwl1d_dot L v x : KF.pwl1d L v x == dot (kfl_w1d false L x) v.
Proof. unfold KF.pwl1d. rewrite <- gdot_qsum. apply gdot_leq. apply interp_weights_w1d. Qed.

Lemma term_out_kfl_term L s : forall vs xs, KF.term_out L xs s vs == kfl_term (map (kfl_w1d false L) xs) s vs.
Proof. intros vs xs. unfold KF.term_out, kfl_term, kfl_dots. rewrite qprod_prod.
  assert (E : leq (map2 (KF.pwl1d L) vs xs) (map2 dot (map (kfl_w1d false L) xs) vs)).
  { revert xs. induction vs as [|v vs IH]; intros [|x xs]; cbn [map map2]; try constructor. apply pwl1d_dot. apply IH. }
  rewrite (prod_leq _ _ E). reflexivity. Qed.

Lemma qsum_map2_ext_in {B} (f g : Q -> B -> Q) : forall a b, (forall s K, In K b -> f s K == g s K) ->
  qsum (map2 f a b) == qsum (map2 g a b).
Proof. induction a as [|x a IH]; intros [|y b] H; cbn [map2 qsum]; try reflexivity.
  rewrite H by (left; reflexivity). rewrite IH. reflexivity. intros; apply H; right; assumption. Qed.
Lemma qsum_map2_diff {B} (f g c : Q -> B -> Q) h : forall a b, (forall s K, In K b -> f s K - g s K == h * c s K) ->
  qsum (map2 f a b) - qsum (map2 g a b) == h * qsum (map2 c a b).
Proof. induction a as [|x a IH]; intros [|y b] H; cbn [map2 qsum]; try ring.
  pose proof (H x y (or_introl eq_refl)) as H0. pose proof (IH b (fun s K HK => H s K (or_intror HK))) as H1. lra. Qed.
Lemma qsum_map2_scale_r {B} (f : Q -> B -> Q) c : forall a b,
  qsum (map2 (fun s K => f s K * c) a b) == qsum (map2 f a b) * c.
Proof. induction a as [|x a IH]; intros [|y b]; cbn [map2 qsum]; try ring. rewrite IH. ring. Qed.

(* Model/KFL.v's unit evaluation is Model.Gradients.kfl_out on the weights the check uses *)
Lemma unit_eval_kfl_out clip L su ku b xs : length su = length ku ->
  KF.unit_eval clip L su ku b xs == kfl_out (map (kfl_w1d clip L) xs) b su ku.
Proof. intros Hl. unfold KF.unit_eval, KF.qmean, kfl_out. rewrite map2_length, <- Hl, Nat.min_id.
  change (KF.qn (length su)) with (qnat (length su)).
  assert (E : map (kfl_w1d clip L) xs = map (kfl_w1d false L) (map (KF.clip_in clip L) xs)).
  { rewrite map_map. apply map_ext. intros x. apply kfl_w1d_clip_in. }
  rewrite E.
  assert (S : qsum (map2 (KF.term_out L (map (KF.clip_in clip L) xs)) su ku) ==
              qsum (map2 (kfl_term (map (kfl_w1d false L) (map (KF.clip_in clip L) xs))) su ku))
    by (apply qsum_map2_ext_in; intros; apply term_out_kfl_term).
  rewrite S. unfold Qdiv. ring. Qed.

Lemma unit_out_kfl_out c p u xs : length (nth u (KF.p_scale p) []) = length (nth u (KF.p_kern p) []) ->
  KF.unit_out c p u xs ==
  kfl_out (map (kfl_w1d (KF.c_clip c) (KF.c_size c)) xs) (nth u (KF.p_bias p) 0) (nth u (KF.p_scale p) []) (nth u (KF.p_kern p) []).
Proof. intros H. unfold KF.unit_out. apply unit_eval_kfl_out. exact H. Qed.

Lemma set_nth_g_length {A} i (v : A) l : length (set_nth_g i v l) = length l.
Proof. revert i; induction l as [|x l IH]; intros [|i]; cbn; auto. Qed.
Lemma kfl_w1d_length clip L x : length (kfl_w1d clip L x) = L.
Proof. unfold kfl_w1d. destruct (Nat.eqb_spec L 2). subst; reflexivity. unfold w1d. rewrite map_length, seq_length. reflexivity. Qed.
Lemma kfl_dw1d_length clip L x : length (kfl_dw1d clip L x) = L.
Proof. unfold kfl_dw1d. destruct (clip && _). apply repeat_length. destruct (Nat.eqb_spec L 2). subst; reflexivity.
  rewrite map_length, seq_length. reflexivity. Qed.
Lemma nth_map_list {A} (f : A -> list Q) l d da : (d < length l)%nat -> nth d (map f l) [] = f (nth d l da).
Proof. intros H. rewrite nth_indep with (d' := f da) by (rewrite map_length; exact H). apply map_nth. Qed.

(* kernel and scale gradients of the layer model's unit output *)
Lemma kfl_unit_kernel_gradient clip L su ku b xs t d k h :
  length su = length ku -> (t < length su)%nat -> (d < length (nth t ku []))%nat -> (d < length xs)%nat ->
  (k < length (nth d (nth t ku []) []))%nat -> (k < L)%nat ->
  KF.unit_eval clip L su
    (set_nth_g t (set_nth_g d (set_nth k (nth k (nth d (nth t ku []) []) 0 + h) (nth d (nth t ku []) [])) (nth t ku [])) ku) b xs
  - KF.unit_eval clip L su ku b xs
  == h * nth k (nth d (kfl_grad_kernel (map (kfl_w1d clip L) xs) (length su) (nth t su 0) (nth t ku [])) []) 0.
Proof. intros Hl Ht Hd Hdx Hk HkL. rewrite !unit_eval_kfl_out by (rewrite ?set_nth_g_length; exact Hl).
  apply kfl_out_kernel_gradient; try assumption; try lia. rewrite map_length; exact Hdx.
  rewrite (nth_map_list _ xs d 0) by exact Hdx. rewrite kfl_w1d_length. exact HkL. Qed.

Lemma kfl_unit_scale_gradient clip L su ku b xs t h : length su = length ku -> (t < length su)%nat ->
  KF.unit_eval clip L (set_nth t (nth t su 0 + h) su) ku b xs - KF.unit_eval clip L su ku b xs
  == h * kfl_grad_scale (map (kfl_w1d clip L) xs) (length su) (nth t ku []).
Proof. intros Hl Ht. rewrite !unit_eval_kfl_out by (rewrite ?set_nth_length; exact Hl).
  apply kfl_out_scale_gradient. exact Ht. unfold KF.term, KF.vec in *. lia. Qed.

(* ---- input gradient: slope within one linear piece of the 1-D weights ---- *)
Definition hat_piece (x h : Q) : Prop :=
  (exists j, qnat j < x /\ x < qnat j + 1 /\ qnat j <= x + h /\ x + h <= qnat j + 1) \/
  (-(1) < x /\ x < 0 /\ -(1) <= x + h /\ x + h <= 0) \/
  (x < -(1) /\ x + h <= -(1)).

Lemma qnat_le k j : (k <= j)%nat -> qnat k <= qnat j.
Proof. intros H. unfold qnat. rewrite <- Zle_Qle. lia. Qed.

Ltac hat_dx_tac :=
  unfold hat, hat_dx;
  match goal with |- context [qlt ?a 1] => destruct (qlt a 1) eqn:E1; [apply qlt_true in E1|apply qlt_false in E1] end;
  [match goal with |- context [qlt ?a ?b] => destruct (qlt a b) eqn:E2; [apply qlt_true in E2|apply qlt_false in E2] end|];
  cbv iota; qcases; lra.

Lemma hat_dx_slope x h k : hat_piece x h -> hat (x + h) k - hat x k == h * hat_dx x k.
Proof. pose proof (qnat_nonneg k) as Hk0.
  intros [[j [H1 [H2 [H3 H4]]]]|[[H1 [H2 [H3 H4]]]|[H1 H2]]].
  - assert (Hk : qnat k == qnat j \/ qnat k + 1 <= qnat j \/ qnat k == qnat j + 1 \/ qnat j + 2 <= qnat k).
    { destruct (Nat.lt_trichotomy k j) as [H|[H|H]]. right; left; apply qnat_lt; assumption.
      left; subst; reflexivity. right; right.
      destruct (Nat.eq_dec k (S j)) as [->|Hne]. left; apply qnat_S.
      right. assert (Hlt : (S j < k)%nat) by lia. pose proof (qnat_lt (S j) k Hlt) as Hq. rewrite qnat_S in Hq. lra. }
    destruct Hk as [Hk|[Hk|[Hk|Hk]]]; hat_dx_tac.
  - assert (Hk : qnat k == 0 \/ 1 <= qnat k).
    { destruct k as [|k]. left; reflexivity. right. rewrite qnat_S. pose proof (qnat_nonneg k). lra. }
    destruct Hk as [Hk|Hk]; hat_dx_tac.
  - hat_dx_tac. Qed.

Definition kfl_piece (clip : bool) (size : nat) (x h : Q) : Prop :=
  if clip then
    (x < 0 /\ x + h <= 0) \/ (qnat size - 1 < x /\ qnat size - 1 <= x + h) \/
    (0 <= x /\ x <= qnat size - 1 /\ 0 <= x + h /\ x + h <= qnat size - 1 /\ (size = 2%nat \/ hat_piece x h))
  else size = 2%nat \/ hat_piece x h.

Lemma outside_true size x : x < 0 \/ qnat size - 1 < x -> (qlt x 0 || qlt (qnat size - 1) x) = true.
Proof. intros [H|H]; apply qlt_true in H; rewrite H. reflexivity. apply Bool.orb_true_r. Qed.
Lemma outside_false size x : 0 <= x -> x <= qnat size - 1 -> (qlt x 0 || qlt (qnat size - 1) x) = false.
Proof. intros H0 H1. apply qlt_false in H0. apply qlt_false in H1. rewrite H0, H1. reflexivity. Qed.

Lemma map2_map_seq (f f1 f2 : nat -> Q) (g : Q -> Q -> Q) (l : list nat) : (forall k, f k == g (f1 k) (f2 k)) ->
  leq (map f l) (map2 g (map f1 l) (map f2 l)).
Proof. intros H. induction l; cbn [map map2]; constructor. apply H. assumption. Qed.
Lemma repeat_map_seq (a : Q) n : forall k, repeat a n = map (fun _ => a) (seq k n).
Proof. induction n as [|n IH]; intros k; cbn. reflexivity. f_equal. apply IH. Qed.

Lemma kfl_w1d_piece clip size x h : kfl_piece clip size x h ->
  leq (kfl_w1d clip size (x + h)) (map2 (fun a s => a + h * s) (kfl_w1d clip size x) (kfl_dw1d clip size x)).
Proof. intros Hp. unfold kfl_w1d, kfl_dw1d. destruct (Nat.eqb_spec size 2) as [E|NE].
  - subst size. assert (E2 : qnat 2 == 2) by reflexivity. destruct clip; cbn [andb]; unfold kfl_piece in Hp.
    + destruct Hp as [[H1 H2]|[[H1 H2]|[H1 [H2 [H3 [H4 _]]]]]].
      * rewrite outside_true by (left; exact H1). cbn [repeat map2].
        constructor; [|constructor; [|constructor]]; unfold clip_lat, qclip; qcases; lra.
      * rewrite outside_true by (right; exact H1). cbn [repeat map2].
        constructor; [|constructor; [|constructor]]; unfold clip_lat, qclip; qcases; lra.
      * rewrite outside_false by assumption. cbn [map2].
        constructor; [|constructor; [|constructor]]; unfold clip_lat, qclip; qcases; lra.
    + cbn [map2]. constructor; [|constructor; [|constructor]]; ring.
  - unfold w1d. destruct clip; cbn [andb]; unfold kfl_piece in Hp.
    + destruct Hp as [[H1 H2]|[[H1 H2]|[H1 [H2 [H3 [H4 Hh]]]]]].
      * rewrite outside_true by (left; exact H1). rewrite (repeat_map_seq 0 size 0). apply map2_map_seq.
        intros k. unfold hat, clip_lat, qclip. qcases; lra.
      * rewrite outside_true by (right; exact H1). rewrite (repeat_map_seq 0 size 0). apply map2_map_seq.
        intros k. unfold hat, clip_lat, qclip. qcases; lra.
      * rewrite outside_false by assumption. destruct Hh as [Hh|Hh]; [contradiction|]. apply map2_map_seq. intros k.
        rewrite (hat_eq (clip_lat size (x + h)) (x + h) k) by (apply qclip_id; assumption).
        rewrite (hat_eq (clip_lat size x) x k) by (apply qclip_id; assumption).
        pose proof (hat_dx_slope x h k Hh). lra.
    + destruct Hp as [Hp|Hh]; [contradiction|]. apply map2_map_seq. intros k. pose proof (hat_dx_slope x h k Hh). lra. Qed.

Lemma kfl_dots_leq : forall ws ws' K, Forall2 (Forall2 Qeq) ws ws' -> leq (kfl_dots ws K) (kfl_dots ws' K).
Proof. unfold kfl_dots. intros ws ws' K H. revert K. induction H; intros [|k K]; cbn [map2]; constructor.
  apply gdot_leq; assumption. apply IHForall2. Qed.
Lemma kfl_term_leq ws ws' s K : Forall2 (Forall2 Qeq) ws ws' -> kfl_term ws s K == kfl_term ws' s K.
Proof. intros H. unfold kfl_term. rewrite (prod_leq _ _ (kfl_dots_leq ws ws' K H)). reflexivity. Qed.
Lemma set_nth_g_map (f : Q -> list Q) v : forall xs i, map f (set_nth i v xs) = set_nth_g i (f v) (map f xs).
Proof. induction xs as [|x xs IH]; intros [|i]; cbn [set_nth map set_nth_g]; try reflexivity. rewrite IH. reflexivity. Qed.
Lemma set_nth_g_leq (w w' : list Q) : leq w w' -> forall ws i, Forall2 (Forall2 Qeq) (set_nth_g i w ws) (set_nth_g i w' ws).
Proof. intros H. induction ws as [|a ws IH]; intros [|i]; cbn [set_nth_g]; try constructor; try apply leq_refl; try assumption.
  - clear. induction ws; constructor. apply leq_refl. assumption.
  - apply IH. Qed.

Lemma kfl_term_input_piece clip L xs s K i h : (i < length xs)%nat -> (i < length K)%nat ->
  kfl_piece clip L (nth i xs 0) h ->
  kfl_term (map (kfl_w1d clip L) (set_nth i (nth i xs 0 + h) xs)) s K - kfl_term (map (kfl_w1d clip L) xs) s K
  == h * (s * nth i (grad_prod (kfl_dots (map (kfl_w1d clip L) xs) K)) 0
          * dot (nth i (map (kfl_dw1d clip L) xs) []) (nth i K [])).
Proof. intros Hi HK Hp. rewrite set_nth_g_map. set (ws := map (kfl_w1d clip L) xs).
  assert (Hw : nth i ws [] = kfl_w1d clip L (nth i xs 0)) by (apply nth_map_list; exact Hi).
  rewrite (nth_map_list _ xs i 0) by exact Hi.
  rewrite (kfl_term_leq _ _ s K (set_nth_g_leq _ _ (kfl_w1d_piece clip L (nth i xs 0) h Hp) ws i)).
  rewrite <- Hw. apply kfl_term_input_gradient. exact HK. unfold ws; rewrite map_length; exact Hi.
  rewrite Hw, kfl_w1d_length, kfl_dw1d_length. reflexivity. Qed.

Lemma kfl_out_input_gradient clip L bias scales Ks xs i h :
  (i < length xs)%nat -> Forall (fun K : list (list Q) => (i < length K)%nat) Ks -> kfl_piece clip L (nth i xs 0) h ->
  kfl_out (map (kfl_w1d clip L) (set_nth i (nth i xs 0 + h) xs)) bias scales Ks
  - kfl_out (map (kfl_w1d clip L) xs) bias scales Ks
  == h * nth i (kfl_grad_input (map (kfl_w1d clip L) xs) (map (kfl_dw1d clip L) xs) scales Ks) 0.
Proof. intros Hi HK Hp. unfold kfl_out, kfl_grad_input. rewrite map_length.
  rewrite nth_map_seq by exact Hi. rewrite Qred_correct.
  set (ws := map (kfl_w1d clip L) xs). set (ws' := map (kfl_w1d clip L) (set_nth i (nth i xs 0 + h) xs)).
  set (cf := fun s K => s * nth i (grad_prod (kfl_dots ws K)) 0 * dot (nth i (map (kfl_dw1d clip L) xs) []) (nth i K [])).
  assert (D : qsum (map2 (kfl_term ws') scales Ks) - qsum (map2 (kfl_term ws) scales Ks) == h * qsum (map2 cf scales Ks)).
  { apply qsum_map2_diff. intros s K HKin. rewrite Forall_forall in HK. apply kfl_term_input_piece; auto. }
  assert (S : qsum (map2 (fun s K => s / qnat (length scales) * nth i (grad_prod (kfl_dots ws K)) 0
                                       * dot (nth i (map (kfl_dw1d clip L) xs) []) (nth i K [])) scales Ks)
              == qsum (map2 cf scales Ks) * / qnat (length scales)).
  { rewrite <- qsum_map2_scale_r. apply qsum_map2_ext_in. intros; unfold cf, Qdiv; ring. }
  rewrite S. unfold Qdiv.
  set (A := qsum (map2 (kfl_term ws') scales Ks)) in *. set (B := qsum (map2 (kfl_term ws) scales Ks)) in *.
  set (C := qsum (map2 cf scales Ks)) in *. set (T := / qnat (length scales)).
  assert (E : bias + A * T - (bias + B * T) == (A - B) * T) by ring. rewrite E, D. ring. Qed.

(* the layer model: unit u of Model/KFL.v's layer *)
Lemma kfl_unit_input_gradient c p u xs i h :
  length (nth u (KF.p_scale p) []) = length (nth u (KF.p_kern p) []) ->
  (i < length xs)%nat -> Forall (fun K : list (list Q) => (i < length K)%nat) (nth u (KF.p_kern p) []) ->
  kfl_piece (KF.c_clip c) (KF.c_size c) (nth i xs 0) h ->
  KF.unit_out c p u (set_nth i (nth i xs 0 + h) xs) - KF.unit_out c p u xs
  == h * nth i (kfl_grad_input (map (kfl_w1d (KF.c_clip c) (KF.c_size c)) xs) (map (kfl_dw1d (KF.c_clip c) (KF.c_size c)) xs)
                               (nth u (KF.p_scale p) []) (nth u (KF.p_kern p) [])) 0.
Proof. intros Hl Hi HK Hp. rewrite !unit_out_kfl_out by exact Hl. apply kfl_out_input_gradient; assumption. Qed.

(* ------------------------------------------------------------------ *)
(* 6. satisfiability of the hypotheses / non-vacuity                    *)
(* ------------------------------------------------------------------ *)
(* C02's example lattice (sizes [2;3], 2 units): both sides computed *)
Example hyper_link_ex :
  LI.unit_fn LI.Hypercube true true 2 ex_sizes ex_K 1 [1#2; 3#2] == dot (hyper_weights true false ex_sizes [1#2; 3#2]) (column 1 ex_K) /\
  LI.unit_fn LI.Hypercube false false 2 ex_sizes ex_K 1 [3#2; 5#2] == dot (hyper_weights false true ex_sizes [3#2; 5#2]) (column 1 ex_K).
Proof. split; vm_compute; reflexivity. Qed.
Example simplex_link_ex :
  lattice_point_ok false ex_sizes [1#2; 3#2] /\ wfK 2 ex_K 1 /\
  LI.unit_fn LI.Simplex true false 2 ex_sizes ex_K 1 [1#2; 3#2] == dot (simplex_weights false ex_sizes [1#2; 3#2]) (column 1 ex_K).
Proof. split; [|split].
  - exact lattice_point_ok_sat.
  - split. lia. repeat constructor.
  - vm_compute; reflexivity. Qed.
Definition ex_pwl : PE.pwl_layer :=
  PE.build_fixed 2 [0; 1; 3; 4] true [[1; 2]; [1#2; 0]; [-(1); 3]] true (Some (-(1))) (Some 7) [] false.
Example pwl_shape_ok_sat : pwl_shape_ok ex_pwl 1 /\ (1 < PE.p_units ex_pwl)%nat /\
  nth 1 (PE.call_row ex_pwl [5#2; -(1)] None) 0 ==
  missing_flag ex_pwl [5#2; -(1)] None 1 * 7 +
  dot (pwl_kernel_weights true (missing_flag ex_pwl [5#2; -(1)] None 1) (PE.unit_lefts ex_pwl 1) (PE.unit_lens ex_pwl 1) (-(1)))
      (column 1 (PE.p_kernel ex_pwl)).
Proof. split; [|split].
  - intros _. cbn. repeat split; try reflexivity. discriminate.
  - cbn. lia.
  - vm_compute; reflexivity. Qed.
Example hat_piece_sat : hat_piece (5#4) (1#4) /\ hat_piece (-(1#2)) (1#4) /\ hat_piece (-(3)) 1.
Proof. split; [|split].
  - left. exists 1%nat. unfold qnat, Qlt, Qle; cbn; lia.
  - right; left. unfold Qlt, Qle; cbn; lia.
  - right; right. unfold Qlt, Qle; cbn; lia. Qed.
Example kfl_piece_sat : kfl_piece true 3 (5#4) (1#4) /\ kfl_piece true 2 0 (1#2) /\ kfl_piece true 3 (-(1)) (1#2) /\
  kfl_piece false 2 5 (-(7)) /\ kfl_piece false 4 (5#4) (-(1#4)).
Proof. repeat split.
  - right; right. repeat split; try (unfold qnat, Qle; cbn; lia). right. left. exists 1%nat. unfold qnat, Qlt, Qle; cbn; lia.
  - right; right. repeat split; try (unfold qnat, Qle; cbn; lia).
  - left. unfold Qlt, Qle; cbn; lia.
  - left; reflexivity.
  - right. left. exists 1%nat. unfold qnat, Qlt, Qle; cbn; lia. Qed.
