(* Correctness of the explicit-stack DFS topological sort of
   Model/PartialOrder.v (internal_utils._topological_sort): for every non-empty
   ACYCLIC pair list the sort neither raises (no TopoCircular), nor runs out of
   the model's fuel (no TopoFuel), and the order it returns is a valid
   topological order (topo_ok). *)
From TFL Require Import Model.PartialOrder Proofs.PartialOrder.
From Coq Require Import Relations.
Local Open Scope nat_scope.
Implicit Types ps qs : pairs.

(* ---------- paths and acyclicity ---------- *)
Definition edge (ps : pairs) (a b : nat) : Prop := In (a, b) ps.
(* non-empty chain of pairs from a to b *)
Definition path (ps : pairs) : nat -> nat -> Prop := clos_trans nat (edge ps).
Definition acyclic (ps : pairs) : Prop := forall a, ~ path ps a a.

Lemma path_step ps a b : In (a, b) ps -> path ps a b.
Proof. intros H. apply t_step. exact H. Qed.
Lemma path_trans ps a b c : path ps a b -> path ps b c -> path ps a c.
Proof. intros H1 H2. eapply t_trans; eassumption. Qed.

(* a strictly increasing rank on the pairs excludes cycles (used to discharge
   acyclicity of concrete graphs) *)
Lemma path_rank ps (f : nat -> nat) : (forall a b, In (a, b) ps -> f a < f b) ->
  forall a b, path ps a b -> f a < f b.
Proof. intros Hf a b H. induction H as [a b H|a b c _ IH1 _ IH2]. apply Hf; exact H. lia. Qed.
Lemma acyclic_rank ps (f : nat -> nat) : (forall a b, In (a, b) ps -> f a < f b) -> acyclic ps.
Proof. intros Hf a H. pose proof (path_rank ps f Hf a a H). lia. Qed.

Lemma path_map ps qs (g : nat -> nat) : (forall a b, In (a, b) ps -> In (g a, g b) qs) ->
  forall a b, path ps a b -> path qs (g a) (g b).
Proof. intros Hg a b H. induction H as [a b H|a b c _ IH1 _ IH2]. apply path_step, Hg, H. eapply path_trans; eassumption. Qed.
Lemma acyclic_incl ps qs : (forall a b, In (a, b) ps -> In (a, b) qs) -> acyclic qs -> acyclic ps.
Proof. intros Hi Hq a H. apply (Hq a). apply (path_map ps qs (fun x => x) Hi a a H). Qed.

(* ---------- membership in keys / roots / nodes ---------- *)
Lemma in_dedup l : forall seen x, In x (dedup l seen) <-> In x l /\ ~ In x seen.
Proof. induction l as [|a l IH]; intros seen x; cbn [dedup].
  - split; [intros []|intros [[] _]].
  - destruct (mem_nat a seen) eqn:E.
    + apply mem_nat_true in E. rewrite IH. split.
      * intros [H1 H2]. split; [right; exact H1|exact H2].
      * intros [[->|H1] H2]; [contradiction|split; assumption].
    + apply mem_nat_false in E. cbn [In]. rewrite IH. split.
      * intros [->|[H1 H2]]. split; [left; reflexivity|exact E].
        split; [right; exact H1|]. intro H; apply H2; right; exact H.
      * intros [[->|H1] H2]. left; reflexivity.
        destruct (Nat.eq_dec a x) as [->|Hne]. left; reflexivity.
        right. split; [exact H1|]. intros [H|H]; [exact (Hne H)|exact (H2 H)]. Qed.
Lemma NoDup_dedup l : forall seen, NoDup (dedup l seen).
Proof. induction l as [|a l IH]; intros seen; cbn [dedup]. constructor.
  destruct (mem_nat a seen) eqn:E. apply IH. constructor; [|apply IH].
  rewrite in_dedup. intros [_ H]. apply H. left; reflexivity. Qed.

Lemma in_keys ps x : In x (keys ps) <-> In x (map fst ps).
Proof. unfold keys. rewrite in_dedup. split; [intros [H _]; exact H|intros H; split; [exact H|intros []]]. Qed.
Lemma in_nodes ps x : In x (nodes ps) <-> In x (map fst ps) \/ In x (map snd ps).
Proof. unfold nodes. rewrite in_dedup, in_app_iff. split; [intros [H _]; exact H|intros H; split; [exact H|intros []]]. Qed.
Lemma in_roots ps x : In x (roots ps) <-> In x (map fst ps) /\ ~ In x (map snd ps).
Proof. unfold roots. rewrite filter_In, in_keys, negb_true_iff, mem_nat_false. reflexivity. Qed.
Lemma NoDup_nodes ps : NoDup (nodes ps). Proof. apply NoDup_dedup. Qed.
Lemma NoDup_roots ps : NoDup (roots ps).
Proof. unfold roots. apply NoDup_filter. apply NoDup_dedup. Qed.

Lemma pair_fst ps a b : In (a, b) ps -> In a (map fst ps).
Proof. intros H. apply in_map_iff. exists (a, b). split; [reflexivity|exact H]. Qed.
Lemma pair_snd ps a b : In (a, b) ps -> In b (map snd ps).
Proof. intros H. apply in_map_iff. exists (a, b). split; [reflexivity|exact H]. Qed.
Lemma in_snd_pred ps b : In b (map snd ps) -> exists a, In (a, b) ps.
Proof. intros H. apply in_map_iff in H. destruct H as [[a b'] [E H]]. cbn in E. subst. exists a. exact H. Qed.
Lemma in_fst_succ ps a : In a (map fst ps) -> exists b, In (a, b) ps.
Proof. intros H. apply in_map_iff in H. destruct H as [[a' b] [E H]]. cbn in E. subst. exists b. exact H. Qed.
Lemma pair_nodes ps a b : In (a, b) ps -> In a (nodes ps) /\ In b (nodes ps).
Proof. intros H. rewrite !in_nodes. split; [left; eapply pair_fst|right; eapply pair_snd]; exact H. Qed.
Lemma node_nodes ps k : node ps k <-> In k (nodes ps).
Proof. rewrite in_nodes. split.
  - intros [x [H|H]]; [left; eapply pair_fst|right; eapply pair_snd]; exact H.
  - intros [H|H]. destruct (in_fst_succ ps k H) as [b Hb]. exists b; left; exact Hb.
    destruct (in_snd_pred ps k H) as [a Ha]. exists a; right; exact Ha. Qed.

Lemma filter_nil {A} (f : A -> bool) l : filter f l = [] -> forall x, In x l -> f x = false.
Proof. intros E x Hx. destruct (f x) eqn:F; [|reflexivity].
  assert (H : In x (filter f l)) by (apply filter_In; split; assumption). rewrite E in H. destruct H. Qed.
Lemma filter_head {A} (f : A -> bool) l x r : filter f l = x :: r -> In x l /\ f x = true.
Proof. intros E. apply filter_In. rewrite E. left; reflexivity. Qed.

Lemma NoDup_app_disj {A} (a b : list A) : NoDup a -> NoDup b -> (forall x, In x a -> ~ In x b) -> NoDup (a ++ b).
Proof. induction a as [|x a IH]; intros Ha Hb Hd; cbn [app]. exact Hb.
  inversion Ha; subst. constructor.
  - intros Hi. apply in_app_iff in Hi. destruct Hi as [Hi|Hi]; [contradiction|]. exact (Hd x (or_introl eq_refl) Hi).
  - apply IH; try assumption. intros y Hy. apply Hd. right; exact Hy. Qed.

Section Sort.
  Variable ps : pairs.
  Hypothesis Hac : acyclic ps.

  (* ---------- every node of a finite acyclic graph is reachable from a root ---------- *)
  Lemma nopred_root h : In h (nodes ps) -> preds ps h = [] -> In h (roots ps).
  Proof. intros Hn E. assert (Hs : ~ In h (map snd ps)).
    { intros H. destruct (in_snd_pred ps h H) as [a Ha]. apply in_preds in Ha. rewrite E in Ha. destruct Ha. }
    apply in_roots. split; [|exact Hs]. apply in_nodes in Hn. destruct Hn as [H|H]; [exact H|contradiction]. Qed.

  Lemma has_root_aux : forall k h l, NoDup (h :: l) -> incl (h :: l) (nodes ps) ->
    (forall y, In y l -> path ps h y) -> length (nodes ps) <= k + length l + 1 ->
    exists r, In r (roots ps) /\ (r = h \/ path ps r h).
  Proof. induction k as [|k IH]; intros h l Hnd Hin Hp Hlen.
    - destruct (preds ps h) as [|p pr] eqn:E.
      + exists h. split; [|left; reflexivity]. apply nopred_root; [apply Hin; left; reflexivity|exact E].
      + exfalso. assert (Hph : In (p, h) ps) by (apply in_preds; rewrite E; left; reflexivity).
        assert (Hall : forall y, In y (h :: l) -> path ps p y).
        { intros y [<-|Hy]. apply path_step; exact Hph. eapply path_trans; [apply path_step; exact Hph|apply Hp; exact Hy]. }
        assert (Hnd' : NoDup (p :: h :: l)).
        { constructor; [|exact Hnd]. intros Hi. exact (Hac p (Hall p Hi)). }
        assert (Hin' : incl (p :: h :: l) (nodes ps)).
        { intros y [<-|Hy]; [apply (pair_nodes ps p h Hph)|apply Hin; exact Hy]. }
        pose proof (NoDup_incl_length Hnd' Hin') as HL. cbn [length] in HL. lia.
    - destruct (preds ps h) as [|p pr] eqn:E.
      + exists h. split; [|left; reflexivity]. apply nopred_root; [apply Hin; left; reflexivity|exact E].
      + assert (Hph : In (p, h) ps) by (apply in_preds; rewrite E; left; reflexivity).
        assert (Hall : forall y, In y (h :: l) -> path ps p y).
        { intros y [<-|Hy]. apply path_step; exact Hph. eapply path_trans; [apply path_step; exact Hph|apply Hp; exact Hy]. }
        assert (Hnd' : NoDup (p :: h :: l)).
        { constructor; [|exact Hnd]. intros Hi. exact (Hac p (Hall p Hi)). }
        assert (Hin' : incl (p :: h :: l) (nodes ps)).
        { intros y [<-|Hy]; [apply (pair_nodes ps p h Hph)|apply Hin; exact Hy]. }
        destruct (IH p (h :: l) Hnd' Hin' Hall) as [r [Hr Hrp]]. cbn [length]; lia.
        exists r. split; [exact Hr|]. right. destruct Hrp as [->|Hrp]. apply path_step; exact Hph.
        eapply path_trans; [exact Hrp|apply path_step; exact Hph]. Qed.

  Lemma has_root x : In x (nodes ps) -> exists r, In r (roots ps) /\ (r = x \/ path ps r x).
  Proof. intros Hx. apply (has_root_aux (length (nodes ps)) x []).
    - constructor; [intros []|constructor].
    - intros y [<-|[]]. exact Hx.
    - intros y [].
    - cbn [length]. lia. Qed.

  (* ---------- the DFS invariant ---------- *)
  (* every stack element that has a predecessor is connected by a path to every
     element above it (the stack is [roots not yet started] below a path) *)
  Fixpoint chain (q : list nat) : Prop :=
    match q with
    | [] => True
    | a :: t => (forall y, In y t -> In y (map snd ps) -> path ps y a) /\ chain t
    end.

  Record Inv (q seen result : list nat) : Prop := {
    inv_nodup_q : NoDup q;
    inv_disj : forall x, In x q -> ~ In x result;
    inv_seen : forall x, In x seen -> In x result \/ In x q;
    inv_res_seen : forall x, In x result -> In x seen;
    inv_below : forall x, In x (tl q) -> In x seen \/ ~ In x (map snd ps);
    inv_chain : chain q;
    inv_closed : forall x y, In x result -> In (x, y) ps -> In y result;
    inv_nodup_r : NoDup result;
    inv_ordered : ordered ps result;
    inv_roots : forall r, In r (roots ps) -> In r result \/ In r q;
    inv_nodes : forall x, In x q \/ In x result -> In x (nodes ps)
  }.

  Lemma chain_nopred q : (forall x, In x q -> ~ In x (map snd ps)) -> chain q.
  Proof. induction q as [|a q IH]; intros H; cbn [chain]. exact I. split.
    - intros y Hy Hs. exfalso. exact (H y (or_intror Hy) Hs).
    - apply IH. intros x Hx. apply H. right; exact Hx. Qed.

  Lemma Inv_init : Inv (rev (roots ps)) [] [].
  Proof. assert (Hr : forall x, In x (rev (roots ps)) -> In x (map fst ps) /\ ~ In x (map snd ps)).
    { intros x Hx. apply in_roots. apply in_rev. exact Hx. }
    constructor.
    - apply NoDup_rev. apply NoDup_roots.
    - intros x _ [].
    - intros x [].
    - intros x [].
    - intros x Hx. right. apply Hr. destruct (rev (roots ps)); [destruct Hx|right; exact Hx].
    - apply chain_nopred. intros x Hx. apply Hr; exact Hx.
    - intros x y [].
    - constructor.
    - exact I.
    - intros r Hr'. right. apply in_rev in Hr'. exact Hr'.
    - intros x [Hx|[]]. apply in_nodes. left. apply Hr; exact Hx. Qed.

  (* push: x is the first successor of the top v that is not yet seen *)
  Lemma Inv_push v q seen result x : Inv (v :: q) seen result ->
    In (v, x) ps -> ~ In x (v :: seen) -> Inv (x :: v :: q) (v :: seen) result.
  Proof. intros [I1 I2 I3 I4 I5 I6 I7 I8 I9 I10 I11] Hvx Hx. constructor.
    - constructor; [|exact I1]. intros [E|Hq].
      + apply Hx. left; exact E.
      + destruct (I5 x Hq) as [H|H]. apply Hx; right; exact H. apply H. eapply pair_snd; exact Hvx.
    - intros y [<-|Hy]. intros Hr. apply Hx. right. apply I4; exact Hr. apply I2; exact Hy.
    - intros y [<-|Hy]. right; right; left; reflexivity.
      destruct (I3 y Hy) as [H|H]; [left; exact H|right; right; exact H].
    - intros y Hy. right. apply I4; exact Hy.
    - cbn [tl]. intros y [<-|Hy]. left; left; reflexivity.
      destruct (I5 y Hy) as [H|H]; [left; right; exact H|right; exact H].
    - cbn [chain]. split; [|exact I6]. intros y [<-|Hy] Hs. apply path_step; exact Hvx.
      cbn [chain] in I6. destruct I6 as [Hc _]. eapply path_trans; [apply Hc; assumption|apply path_step; exact Hvx].
    - exact I7.
    - exact I8.
    - exact I9.
    - intros r Hr. destruct (I10 r Hr) as [H|H]; [left; exact H|right; right; exact H].
    - intros y [[<-|Hy]|Hy]. apply (pair_nodes ps v x Hvx). apply I11; left; exact Hy. apply I11; right; exact Hy. Qed.

  (* pop: every successor of the top v is seen *)
  Lemma Inv_pop v q seen result : Inv (v :: q) seen result ->
    (forall y, In (v, y) ps -> In y (v :: seen)) -> Inv q (v :: seen) (v :: result).
  Proof. intros [I1 I2 I3 I4 I5 I6 I7 I8 I9 I10 I11] Hall.
    assert (Hvq : ~ In v q) by (inversion I1; assumption).
    assert (Hvr : ~ In v result) by (apply I2; left; reflexivity).
    assert (Hsucc : forall y, In (v, y) ps -> In y result).
    { intros y Hvy. destruct (Hall y Hvy) as [E|Hs].
      - exfalso. subst y. apply (Hac v). apply path_step; exact Hvy.
      - destruct (I3 y Hs) as [H|[E|Hq]]. exact H.
        + exfalso. subst y. apply (Hac v). apply path_step; exact Hvy.
        + exfalso. cbn [chain] in I6. destruct I6 as [Hc _]. apply (Hac v).
          eapply path_trans; [apply path_step; exact Hvy|]. apply Hc. exact Hq. eapply pair_snd; exact Hvy. }
    constructor.
    - inversion I1; assumption.
    - intros x Hx [E|Hr]. subst x. exact (Hvq Hx). exact (I2 x (or_intror Hx) Hr).
    - intros x [<-|Hx]. left; left; reflexivity.
      destruct (I3 x Hx) as [H|[E|H]]; [left; right; exact H|left; left; exact E|right; exact H].
    - intros x [<-|Hx]; [left; reflexivity|right; apply I4; exact Hx].
    - intros x Hx. assert (Hq : In x q) by (destruct q; [destruct Hx|right; exact Hx]).
      destruct (I5 x Hq) as [H|H]; [left; right; exact H|right; exact H].
    - cbn [chain] in I6. apply I6.
    - intros x y [<-|Hx] Hxy. right. apply Hsucc; exact Hxy. right. eapply I7; eassumption.
    - constructor; assumption.
    - cbn [ordered]. split; [|exact I9]. intros p Hp Hr. apply Hvr. eapply I7; eassumption.
    - intros r Hr. destruct (I10 r Hr) as [H|[E|H]]; [left; right; exact H|left; left; exact E|right; exact H].
    - intros x [Hx|[<-|Hx]]. apply I11; left; right; exact Hx. apply I11; left; left; reflexivity. apply I11; right; exact Hx. Qed.

  Lemma Inv_final seen result : Inv [] seen result ->
    topo_ok ps result /\ (forall v, In v result -> In v (nodes ps)).
  Proof. intros [I1 I2 I3 I4 I5 I6 I7 I8 I9 I10 I11]. split; [|intros v Hv; apply I11; right; exact Hv].
    assert (Hcl : forall a b, path ps a b -> In a result -> In b result).
    { intros a b H. induction H as [a b H|a b c _ IH1 _ IH2]; intros Ha. eapply I7; eassumption. auto. }
    assert (Hall : forall x, In x (nodes ps) -> In x result).
    { intros x Hx. destruct (has_root x Hx) as [r [Hr Hrx]].
      assert (Hrr : In r result) by (destruct (I10 r Hr) as [H|[]]; exact H).
      destruct Hrx as [->|Hp]; [exact Hrr|]. eapply Hcl; eassumption. }
    split; [exact I8|split; [|exact I9]].
    intros i j Hij. destruct (pair_nodes ps i j Hij) as [Hi Hj]. split; apply Hall; assumption. Qed.

  (* count: the stack and the result are disjoint duplicate-free sets of nodes *)
  Lemma Inv_count q seen result : Inv q seen result -> length result + length q <= length (nodes ps).
  Proof. intros [I1 I2 I3 I4 I5 I6 I7 I8 I9 I10 I11]. rewrite <- app_length. apply NoDup_incl_length.
    - apply NoDup_app_disj; try assumption. intros x Hr Hq. exact (I2 x Hq Hr).
    - intros x Hx. apply in_app_iff in Hx. apply I11. tauto. Qed.

  (* total correctness of the loop: 2*|nodes| - 2*|result| - |q| + 1 units of
     fuel suffice from every state satisfying the invariant *)
  Lemma dfs_correct : forall fuel q seen result, Inv q seen result ->
    2 * length (nodes ps) + 1 <= fuel + 2 * length result + length q ->
    exists s, dfs fuel ps q seen result = Some s /\ topo_ok ps s /\ (forall v, In v s -> In v (nodes ps)).
  Proof. induction fuel as [|f IH]; intros q seen result HI Hf.
    - exfalso. pose proof (Inv_count q seen result HI). lia.
    - destruct q as [|v q]; cbn [dfs].
      + exists result. split; [reflexivity|]. eapply Inv_final; exact HI.
      + destruct (filter (fun x => negb (mem_nat x (v :: seen))) (succs ps v)) as [|x rest] eqn:E.
        * apply IH.
          -- apply Inv_pop; [exact HI|]. intros y Hy. apply in_succs in Hy.
             pose proof (filter_nil _ _ E y Hy) as H. cbn beta in H. apply negb_false_iff in H. apply mem_nat_true; exact H.
          -- cbn [length] in *. lia.
        * apply filter_head in E. destruct E as [E1 E2]. apply in_succs in E1.
          apply negb_true_iff in E2. apply mem_nat_false in E2. apply IH.
          -- apply Inv_push; assumption.
          -- cbn [length] in *. lia. Qed.

  Lemma roots_nonempty : ps <> [] -> roots ps <> [].
  Proof. intros Hne. destruct ps as [|[a b] rest] eqn:Eps; [congruence|]. rewrite <- Eps in *.
    assert (Ha : In a (nodes ps)) by (apply (pair_nodes ps a b); rewrite Eps; left; reflexivity).
    destruct (has_root a Ha) as [r [Hr _]]. intros E. rewrite E in Hr. destruct Hr. Qed.

  Theorem toposort_correct_sec : ps <> [] ->
    exists s, toposort ps = TopoOk s /\ topo_ok ps s /\ (forall v, In v s -> In v (nodes ps)).
  Proof. intros Hne. unfold toposort. pose proof (roots_nonempty Hne) as Hr.
    destruct (roots ps) as [|r0 rs] eqn:R; [congruence|]. rewrite <- R.
    destruct (dfs_correct (2 * length (nodes ps) + 2) (rev (roots ps)) [] [] Inv_init) as [s [E T]].
    cbn [length]; lia. rewrite E. exists s. split; [reflexivity|exact T]. Qed.
End Sort.

(* the sort returns a valid order that consists of nodes of the pairs only *)
Theorem toposort_correct_nodes : forall ps, ps <> [] -> acyclic ps ->
  exists s, toposort ps = TopoOk s /\ topo_ok ps s /\ (forall v, In v s -> In v (nodes ps)).
Proof. intros ps Hne Hac. apply toposort_correct_sec; assumption. Qed.

Theorem toposort_correct : forall ps, ps <> [] -> acyclic ps ->
  exists s, toposort ps = TopoOk s /\ topo_ok ps s.
Proof. intros ps Hne Hac. destruct (toposort_correct_nodes ps Hne Hac) as [s [E [T _]]]. exists s. split; assumption. Qed.


(* ---------- the partial-order projection is defined on acyclic pair lists ---------- *)
Lemma po_project_defined ps w : ps <> [] -> acyclic ps -> pairs_in_range ps w ->
  exists s, topo_ok ps s /\ (forall v, In v s -> (v < length w)%nat) /\ po_project ps w = Some (po_with_order ps s w).
Proof. intros Hne Hac Hr. destruct (toposort_correct_nodes ps Hne Hac) as [s [E [T N]]].
  exists s. split; [exact T|split].
  - intros v Hv. apply N in Hv. apply node_nodes in Hv. destruct Hv as [x [H|H]]; apply (Hr _ _ H).
  - unfold po_project. rewrite E. reflexivity. Qed.

(* a diamond 0 -> {1,2} -> 3 with a duplicate pair, pairs listed out of order *)
Example diamond : pairs := [(2, 3); (0, 1); (1, 3); (0, 2); (0, 1)].
Example diamond_acyclic : acyclic diamond.
Proof. apply (acyclic_rank diamond (fun x => x)). intros a b H. cbn in H.
  repeat (destruct H as [H|H]; [inversion H; subst; lia|]). destruct H. Qed.
Example diamond_sorted : toposort diamond = TopoOk [0; 2; 1; 3].
Proof. vm_compute. reflexivity. Qed.
