(* C10: the initial kernel of CategoricalCalibration is constraint(initializer value)
   (CategoricalCalibration.build wraps the initializer), hence feasible for every
   raw value - directly from C06's lemmas about cat_project_col. *)
From TFL Require Export Base.Lists Model.LinearProject Proofs.PartialOrder Proofs.TopoSort Proofs.LinearProject.
Open Scope Q_scope.

Lemma categorical_init_feasible ps lo hi raw r : ps <> [] -> acyclic ps -> pairs_in_range ps raw ->
  cat_project_col ps lo hi raw = Some r ->
  feasible ps r /\
  forall x, In x r -> (forall h, hi = Some h -> x <= h) /\ (forall l, lo = Some l -> (forall h, hi = Some h -> l <= h) -> l <= x).
Proof. intros Hne Ha Hr E. split. exact (cat_pairs ps lo hi raw r Hne Ha Hr E). exact (cat_bounds ps lo hi raw r E). Qed.
